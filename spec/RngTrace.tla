------------------------------ MODULE RngTrace ------------------------------
(* Property C09, code -> spec.  trace.ndjson (written by `verifh rng record`)  *)
(* holds, per case, several executions of the same script with the same seed  *)
(* and choices: "first" and "again" back to back in one process, "disturbed"  *)
(* after and interleaved with unrelated runners and uses of the process-wide  *)
(* random source, "child" in a fresh process.  The stream a seed denotes is   *)
(* unknown to the specification (module Rng: an oracle): it is LEARNED from   *)
(* the first run - the sequence of observations, one per Next call - and      *)
(* every other run must present exactly the same sequence: elements, errors,  *)
(* variable contents, drawn values.  Independently, every drawn value of      *)
(* every run must satisfy its range contract.                                 *)
(*                                                                            *)
(* events: [ev:"case", case, faulty] | [ev:"run", case, run, mode] |                  *)
(*         [ev:"next", case, run, i, res, draws, vars] | [ev:"endrun", steps] *)
(*   res   = [k: "line"|"opts"|"end"|"error"|"panic", node, text, opts]       *)
(*   draws = <<[var, kind: "dice"|"range"|"random", a, b, den, v, ok, tok], ..>> *)
(*           dice/range: v the value (ok = it is an integer), bounds a..b;    *)
(*           random: v = floor(value * 2^30) (-1 if negative, 2^30 if >= 1)   *)
(*   vars  = <<[n, t, tok], ...>>  variable contents after the call           *)
EXTENDS Integers, Sequences, FiniteSets, TLC, Json

Trace == ndJsonDeserialize("trace.ndjson")

VARIABLES l,        \* next trace line
          learned,  \* observations of the first run of the current case
          idx,      \* position inside the run being compared
          differs,  \* this run already differed (reported once)
          faulty,   \* the script of the current case contains a deliberate fault
          bad, nruns, ndraws, ncmp
vars == <<l, learned, idx, differs, faulty, bad, nruns, ndraws, ncmp>>

Init == /\ l = 1 /\ learned = <<>> /\ idx = 1 /\ differs = FALSE /\ faulty = FALSE
        /\ bad = <<>> /\ nruns = 0 /\ ndraws = 0 /\ ncmp = 0

Obs(e) == [res |-> e.res, draws |-> e.draws, vars |-> e.vars]

\* the range contracts of the property
InRange(d) ==
  /\ d.ok
  \* bounds cross in units of 1/den (random_range(0.5, 1.5): a = 1, b = 3, den = 2), so that
  \* bounds that are not whole numbers are judged exactly: the value is an integer BETWEEN them
  /\ CASE d.kind = "dice"   -> 1 <= d.v /\ d.v * d.den <= d.b              \* integer in [1, n]
       [] d.kind = "range"  -> d.a <= d.v * d.den /\ d.v * d.den <= d.b    \* integer in [a, b]
       [] d.kind = "random" -> 0 <= d.v /\ d.v < 1073741824   \* 0 <= value < 1
       [] OTHER -> FALSE
BadDraws(e) == {i \in 1..Len(e.draws) : ~InRange(e.draws[i])}

\* which part of an observation differs from the learned one
WhatDiffers(o, p) == IF o.res # p.res THEN (IF o.res.k = "error" \/ p.res.k = "error" THEN "error" ELSE "element")
                     ELSE IF o.draws # p.draws THEN "drawn-value"
                     ELSE IF o.vars # p.vars THEN "variables" ELSE ""

Room(w) == Cardinality({i \in 1..Len(bad) : bad[i].what = w}) < 25
Report(lst, e, w) == IF Cardinality({i \in 1..Len(lst) : lst[i].what = w}) < 25
                     THEN Append(lst, [line |-> l, case |-> e.case, run |-> e.run, mode |-> e.mode, what |-> w]) ELSE lst

Step ==
  /\ l <= Len(Trace)
  /\ l' = l + 1
  /\ LET e == Trace[l] IN
     CASE e.ev = "case" ->
            /\ learned' = <<>> /\ idx' = 1 /\ differs' = FALSE /\ faulty' = e.faulty
            /\ UNCHANGED <<bad, nruns, ndraws, ncmp>>
       [] e.ev = "run" ->
            /\ idx' = 1 /\ differs' = FALSE /\ nruns' = nruns + 1
            /\ UNCHANGED <<learned, faulty, bad, ndraws, ncmp>>
       [] e.ev = "next" ->
            LET o == Obs(e)
                rangeBad == BadDraws(e) # {}
                b1 == IF rangeBad
                      THEN Report(bad, e, "range-" \o e.draws[CHOOSE i \in BadDraws(e) : TRUE].kind)
                      ELSE bad
                \* every script is in the domain of the built-ins (n >= 1, a <= b): a draw that
                \* panics or fails did not deliver a value in its range
                b2 == IF e.res.k = "panic" THEN Report(b1, e, "no-value-panic")
                      ELSE IF e.res.k = "error" /\ ~faulty THEN Report(b1, e, "no-value-error")
                      ELSE b1
            IN /\ ndraws' = ndraws + Len(e.draws)
               /\ faulty' = faulty
               /\ idx' = idx + 1
               /\ nruns' = nruns
               /\ IF e.run = 1
                  THEN /\ learned' = Append(learned, o) /\ bad' = b2
                       /\ UNCHANGED <<differs, ncmp>>
                  ELSE /\ learned' = learned
                       /\ ncmp' = ncmp + 1
                       /\ IF differs THEN bad' = b2 /\ differs' = differs
                          ELSE IF idx > Len(learned)
                          THEN bad' = Report(b2, e, "differs-longer") /\ differs' = TRUE
                          ELSE LET w == WhatDiffers(o, learned[idx]) IN
                               IF w = "" THEN bad' = b2 /\ differs' = differs
                               ELSE bad' = Report(b2, e, "differs-" \o w) /\ differs' = TRUE
       [] e.ev = "endrun" ->
            /\ bad' = IF e.run # 1 /\ ~differs /\ idx - 1 # Len(learned)
                      THEN Report(bad, e, "differs-shorter") ELSE bad
            /\ UNCHANGED <<learned, idx, differs, faulty, nruns, ndraws, ncmp>>
       [] OTHER -> UNCHANGED <<learned, idx, differs, faulty, bad, nruns, ndraws, ncmp>>

Spec == Init /\ [][Step]_vars

Done == (l = Len(Trace) + 1) =>
          PrintT(<<"RESULT", ToJson([bad |-> bad, lines |-> l - 1, runs |-> nruns, draws |-> ndraws, compared |-> ncmp])>>)
Accepted == TLCGet("stats").diameter - 1 = Len(Trace)
=============================================================================
