------------------------------- MODULE Markup -------------------------------
(* Item-level model of markup/line_parser.go (properties C13, C14, C15).      *)
(*                                                                            *)
(* A line is a sequence of ITEMS.  Every character is a Unicode code point    *)
(* (an integer): no string with non-ASCII content ever crosses the TLA+/JSON  *)
(* boundary, names and string values are sequences of code points.            *)
(*                                                                            *)
(*   [k |-> "ch",  c |-> cp]                  ordinary character              *)
(*   [k |-> "esc", c |-> 91 | 93]             \[ or \]                        *)
(*   [k |-> "pfx", name |-> cps, ws |-> cps]  `Name:` + ASCII blanks (item 1) *)
(*   [k |-> "open", name, props, sh]          [name p=v ...]  (sh: [name=v])  *)
(*   [k |-> "close", name]                    [/name]                         *)
(*   [k |-> "closeall"]                       [/]                             *)
(*   [k |-> "self", name, props, sh]          [name p=v ... /]                *)
(*   [k |-> "select"|"plural"|"ordinal", props]   self-closing replacement    *)
(*   [k |-> "nomarkup", raw |-> cps, close |-> "name"|"all"]                  *)
(*   [k |-> "ropen", rk |-> "select"|"plural"|"ordinal", props, raw, close]   *)
(*       a replacement marker in open form: [select ...]raw[/select] or ...[/] *)
(*       - the replacement text stands for marker and contents                *)
(*   [k |-> "mal", raw |-> cps]               malformed fragment (C14, C15)   *)
(* prop  = [n |-> cps, v |-> value]                                           *)
(* value = [t |-> "int", i] | [t |-> "dec", i, f, k]  (i.f, f on k digits)    *)
(*       | [t |-> "bool", b] | [t |-> "str", s |-> cps, q |-> quoted?]        *)
(*                                                                            *)
(* Two formulations of the result of parsing a line:                          *)
(*  (A) ResA : position arithmetic shaped like parseMarkup /                  *)
(*      buildAttributesFromMarkers: a left fold keeping an output position    *)
(*      counter, a marker list, pairing close markers with the first open     *)
(*      marker of the name, stable sort, trim + shift + clamp;                *)
(*  (B) ResB : provenance.  Every output character carries the time stamp of  *)
(*      the item that emitted it; an attribute covers exactly the output      *)
(*      characters stamped between its open and its close event that survive  *)
(*      the final trim; positions are cardinalities of sets of characters.    *)
(* MC_Markup checks that (A) = (B) on every item sequence up to a bound.      *)
(*                                                                            *)
(* Bug_* switches model the behaviours suspected in the pinned tree or the    *)
(* planned mutants; with one of them on TLC must produce a counterexample.    *)
EXTENDS Integers, Sequences, FiniteSets

CONSTANTS Bug_BytePositions,          \* (A) advances positions by UTF-8 width
          Bug_NoTrimAdjust,           \* (A) trims the text, leaves the ranges alone
          Bug_CloseAllClosesLast,     \* (A) [/] closes only the most recent marker
          Bug_NoSwallow,              \* (A) self-closing markers never swallow whitespace
          Bug_NoResetSourcePosition,  \* parser keeps its source position across calls (C14)
          PairLast                    \* a close marker pairs with the LAST open marker of its name
                                      \* (upstream YarnSpinner) instead of the first (this port);
                                      \* only matters when a name is opened while already open

\* ------------------------------------------------------------------ helpers
Min(S) == CHOOSE x \in S : \A y \in S : x <= y
Max(S) == CHOOSE x \in S : \A y \in S : x >= y
RemoveAt(s, j) == SubSeq(s, 1, j - 1) \o SubSeq(s, j + 1, Len(s))
RECURSIVE Flat(_)
Flat(ss) == IF ss = <<>> THEN <<>> ELSE Head(ss) \o Flat(Tail(ss))
Count(s, x) == Cardinality({i \in DOMAIN s : s[i] = x})
SameBag(a, b) == Len(a) = Len(b) /\ \A i \in DOMAIN a : Count(a, a[i]) = Count(b, a[i])
SafeSub(t, a, b) == IF a >= 1 /\ b <= Len(t) /\ a <= b + 1 THEN SubSeq(t, a, b) ELSE <<-1>>

\* --------------------------------------------------------------- characters
IsSpace(c) == c \in {32, 9, 160, 12288}    \* 160, 12288 occur in C15 lines only
Width(c) == IF c < 128 THEN 1 ELSE IF c < 2048 THEN 2 ELSE IF c < 65536 THEN 3 ELSE 4
RECURSIVE SumWidth(_)
SumWidth(cs) == IF cs = <<>> THEN 0 ELSE Width(Head(cs)) + SumWidth(Tail(cs))

S_nomarkup == <<110, 111, 109, 97, 114, 107, 117, 112>>
S_select == <<115, 101, 108, 101, 99, 116>>
S_plural == <<112, 108, 117, 114, 97, 108>>
S_ordinal == <<111, 114, 100, 105, 110, 97, 108>>
S_character == <<99, 104, 97, 114, 97, 99, 116, 101, 114>>
S_name == <<110, 97, 109, 101>>
S_value == <<118, 97, 108, 117, 101>>
S_one == <<111, 110, 101>>
S_two == <<116, 119, 111>>
S_few == <<102, 101, 119>>
S_other == <<111, 116, 104, 101, 114>>
S_trimwhitespace == <<116, 114, 105, 109, 119, 104, 105, 116, 101, 115, 112, 97, 99, 101>>
S_True == <<84, 114, 117, 101>>
S_False == <<70, 97, 108, 115, 101>>
Reserved == {S_nomarkup, S_select, S_plural, S_ordinal, S_character}
ReplKinds == {"select", "plural", "ordinal"}
ReplName(k) == IF k = "select" THEN S_select ELSE IF k = "plural" THEN S_plural ELSE S_ordinal
RawKinds == {"nomarkup", "ropen"}       \* items whose contents are read as raw text up to their close marker
AsRepl(it) == [k |-> it.rk, props |-> it.props]

\* ------------------------------------------------------------------- values
RECURSIVE Pow10(_)
Pow10(k) == IF k <= 0 THEN 1 ELSE 10 * Pow10(k - 1)
RECURSIVE Digits(_)
Digits(n) == IF n < 10 THEN <<48 + n>> ELSE Digits(n \div 10) \o <<48 + (n % 10)>>

\* the typed value an attribute property must hold; decimals in units of 10^-4
\* ("big": an integer too large for TLC's integers, given by - and compared through - its decimal digits)
NV(v) == CASE v.t = "int"  -> [t |-> "int", i |-> v.i]
           [] v.t = "big"  -> [t |-> "big", s |-> v.s]
           [] v.t = "dec"  -> [t |-> "dec", u |-> v.i * 10000 + v.f * Pow10(4 - v.k)]
           [] v.t = "bool" -> [t |-> "bool", b |-> v.b]
           [] v.t = "str"  -> [t |-> "str", s |-> v.s]
PropSet(props) == {[n |-> props[i].n, v |-> NV(props[i].v)] : i \in DOMAIN props}

\* text a value turns into inside a replacement (decimals: never asked, see WellFormedC13)
Display(v) == CASE v.t = "int"  -> Digits(v.i)
                [] v.t = "big"  -> v.s
                [] v.t = "str"  -> v.s
                [] v.t = "bool" -> IF v.b THEN S_True ELSE S_False
                [] OTHER        -> <<63>>

PropIdx(props, n) == {i \in DOMAIN props : props[i].n = n}
HasProp(props, n) == PropIdx(props, n) # {}
Prop(props, n) == props[Min(PropIdx(props, n))].v
TrimOff(props) == HasProp(props, S_trimwhitespace)
                  /\ Prop(props, S_trimwhitespace).t = "bool" /\ ~Prop(props, S_trimwhitespace).b

RECURSIVE Subst(_, _)      \* every % becomes val
Subst(s, val) == IF s = <<>> THEN <<>>
                 ELSE (IF Head(s) = 37 THEN val ELSE <<Head(s)>>) \o Subst(Tail(s), val)

OrdinalCase(n) == IF n % 10 = 1 /\ n % 100 # 11 THEN S_one
                  ELSE IF n % 10 = 2 /\ n % 100 # 12 THEN S_two
                  ELSE IF n % 10 = 3 /\ n % 100 # 13 THEN S_few
                  ELSE S_other

\* the case a replacement marker selects: [ok, key, val]
ReplCase(it) ==
  IF ~HasProp(it.props, S_value) THEN [ok |-> FALSE]
  ELSE LET v == Prop(it.props, S_value) IN
    CASE it.k = "select"  -> [ok |-> TRUE, key |-> Display(v), val |-> Display(v)]
      [] it.k = "plural"  -> IF v.t = "int" THEN [ok |-> TRUE, key |-> IF v.i = 1 THEN S_one ELSE S_other, val |-> Display(v)]
                             ELSE IF v.t = "big" THEN [ok |-> TRUE, key |-> S_other, val |-> Display(v)]
                             ELSE IF v.t = "dec" THEN [ok |-> TRUE, key |-> S_other, val |-> Display(v)]
                             ELSE [ok |-> FALSE]
      [] it.k = "ordinal" -> IF v.t = "int" THEN [ok |-> TRUE, key |-> OrdinalCase(v.i), val |-> Display(v)]
                             ELSE IF v.t = "big"        \* the category depends on the last two digits only
                             THEN [ok |-> TRUE, key |-> OrdinalCase((v.s[Len(v.s) - 1] - 48) * 10 + v.s[Len(v.s)] - 48), val |-> Display(v)]
                             ELSE [ok |-> FALSE]
Replacement(it) ==
  LET c == ReplCase(it) IN
  IF ~c.ok \/ ~HasProp(it.props, c.key) THEN [ok |-> FALSE, text |-> <<>>]
  ELSE [ok |-> TRUE, text |-> Subst(Display(Prop(it.props, c.key)), c.val)]

PfxChars(it) == it.name \o <<58>> \o it.ws

\* what an item contributes to the text when it is not swallowed
ItemChars(it) == CASE it.k \in {"ch", "esc"} -> <<it.c>>
                   [] it.k = "pfx"           -> PfxChars(it)
                   [] it.k = "nomarkup"      -> it.raw
                   [] it.k \in ReplKinds     -> Replacement(it).text
                   [] it.k = "ropen"         -> Replacement(AsRepl(it)).text
                   [] OTHER                  -> <<>>

\* length of a canonical rendering of the item (only for the model's own source
\* position counter of property C14; absolute values are never compared with the code)
ValLen(v) == CASE v.t = "int" -> Len(Digits(v.i))
               [] v.t = "big" -> Len(v.s)
               [] v.t = "dec" -> Len(Digits(v.i)) + 1 + v.k
               [] v.t = "bool" -> IF v.b THEN 4 ELSE 5
               [] v.t = "str" -> Len(v.s) + (IF v.q THEN 2 ELSE 0)
RECURSIVE PropsLen(_)
PropsLen(ps) == IF ps = <<>> THEN 0 ELSE 2 + Len(Head(ps).n) + ValLen(Head(ps).v) + PropsLen(Tail(ps))
SrcLen(it) == CASE it.k = "ch" -> 1
                [] it.k = "esc" -> 2
                [] it.k = "pfx" -> Len(PfxChars(it))
                [] it.k = "open" -> 2 + Len(it.name) + PropsLen(it.props)
                [] it.k = "self" -> 3 + Len(it.name) + PropsLen(it.props)
                [] it.k \in ReplKinds -> 3 + Len(ReplName(it.k)) + PropsLen(it.props)
                [] it.k = "close" -> 3 + Len(it.name)
                [] it.k = "closeall" -> 3
                [] it.k = "nomarkup" -> 10 + Len(it.raw) + (IF it.close = "all" THEN 3 ELSE 11)
                [] it.k = "ropen" -> 2 + Len(ReplName(it.rk)) + PropsLen(it.props) + Len(it.raw)
                                     + (IF it.close = "all" THEN 3 ELSE 3 + Len(ReplName(it.rk)))
                [] OTHER -> Len(it.raw)

(* ========================================================================= *)
(* (A) position arithmetic                                                    *)
(* ========================================================================= *)
Adv(cs) == IF Bug_BytePositions THEN SumWidth(cs) ELSE Len(cs)

St0(src0) == [pos |-> 0, text |-> <<>>, marks |-> <<>>, lastSp |-> FALSE, sw |-> FALSE,
              err |-> FALSE, src |-> src0]
Mark(ty, name, props, st) == [ty |-> ty, name |-> name, props |-> props, pos |-> st.pos, src |-> st.src]
EmitA(st, cs, lastSp, n) == [st EXCEPT !.text = @ \o cs, !.pos = @ + Adv(cs), !.lastSp = lastSp,
                                       !.sw = FALSE, !.src = @ + n]
AddMark(st, m, n) == [st EXCEPT !.marks = Append(@, m), !.lastSp = FALSE, !.sw = FALSE, !.src = @ + n]

StepA(st, it) ==
  CASE it.k = "ch" ->
         IF st.sw /\ IsSpace(it.c)
         THEN [st EXCEPT !.sw = FALSE, !.lastSp = FALSE, !.src = @ + 1]      \* swallowed
         ELSE EmitA(st, <<it.c>>, IsSpace(it.c), 1)
    [] it.k = "esc" -> EmitA(st, <<it.c>>, FALSE, 2)
    [] it.k = "pfx" -> EmitA(st, PfxChars(it), it.ws # <<>>, Len(PfxChars(it)))
    [] it.k = "open" -> AddMark(st, Mark("open", it.name, it.props, st), SrcLen(it))
    [] it.k = "close" -> AddMark(st, Mark("close", it.name, <<>>, st), SrcLen(it))
    [] it.k = "closeall" -> AddMark(st, Mark("closeall", <<>>, <<>>, st), SrcLen(it))
    [] it.k = "self" ->
         LET sw == ~Bug_NoSwallow /\ (st.pos = 0 \/ st.lastSp) /\ ~TrimOff(it.props)
         IN [AddMark(st, Mark("self", it.name, it.props, st), SrcLen(it)) EXCEPT !.sw = sw]
    [] it.k \in ReplKinds ->
         LET r == Replacement(it) IN
         IF ~r.ok THEN [st EXCEPT !.err = TRUE, !.src = @ + SrcLen(it)]
         ELSE EmitA(AddMark(st, Mark("self", ReplName(it.k), it.props, st), 0), r.text, FALSE, SrcLen(it))
    [] it.k = "nomarkup" ->
         LET st1 == AddMark(st, Mark("open", S_nomarkup, <<>>, st), 0)
             st2 == EmitA(st1, it.raw, FALSE, 10 + Len(it.raw))
         IN AddMark(st2, Mark(IF it.close = "all" THEN "closeall" ELSE "close", S_nomarkup, <<>>, st2),
                    SrcLen(it) - 10 - Len(it.raw))
    [] it.k = "ropen" ->
         LET r == Replacement(AsRepl(it))  nm == ReplName(it.rk) IN
         IF ~r.ok THEN [st EXCEPT !.err = TRUE, !.src = @ + SrcLen(it)]
         ELSE LET st1 == AddMark(st, Mark("open", nm, it.props, st), 0)
                  st2 == EmitA(st1, r.text, FALSE, 2 + Len(nm) + PropsLen(it.props) + Len(it.raw))
              IN AddMark(st2, Mark(IF it.close = "all" THEN "closeall" ELSE "close", nm, <<>>, st2),
                         IF it.close = "all" THEN 3 ELSE 3 + Len(nm))
    [] OTHER -> [st EXCEPT !.err = TRUE, !.src = @ + SrcLen(it)]

RECURSIVE FoldA(_, _, _)
FoldA(items, i, st) == IF i > Len(items) THEN st ELSE FoldA(items, i + 1, StepA(st, items[i]))

MkAttr(o, endPos, ord) == [name |-> o.name, pos |-> o.pos, len |-> endPos - o.pos,
                           props |-> PropSet(o.props), src |-> o.src, ord |-> ord]

\* buildAttributesFromMarkers: a close marker pairs with the FIRST open marker of its name
\* (PairLast: with the most recent one - the other consistent reading of same-name nesting)
RECURSIVE Build(_, _, _, _)
Build(marks, i, open, attrs) ==
  IF i > Len(marks) THEN [ok |-> TRUE, attrs |-> attrs]
  ELSE LET m == marks[i]  n == Len(attrs) IN
    CASE m.ty = "open" -> Build(marks, i + 1, Append(open, m), attrs)
      [] m.ty = "self" -> Build(marks, i + 1, open, Append(attrs, MkAttr(m, m.pos, n + 1)))
      [] m.ty = "close" ->
           LET S == {j \in DOMAIN open : open[j].name = m.name} IN
           IF S = {} THEN [ok |-> FALSE, attrs |-> <<>>]
           ELSE LET j == IF PairLast THEN Max(S) ELSE Min(S) IN
                Build(marks, i + 1, RemoveAt(open, j), Append(attrs, MkAttr(open[j], m.pos, n + 1)))
      [] m.ty = "closeall" ->
           IF Bug_CloseAllClosesLast /\ open # <<>>
           THEN Build(marks, i + 1, SubSeq(open, 1, Len(open) - 1),
                      Append(attrs, MkAttr(open[Len(open)], m.pos, n + 1)))
           ELSE Build(marks, i + 1, <<>>,
                      attrs \o [j \in DOMAIN open |-> MkAttr(open[j], m.pos, n + j)])

\* stable insertion sort by position
RECURSIVE InsertSorted(_, _)
InsertSorted(s, a) == IF s = <<>> THEN <<a>>
                      ELSE IF s[Len(s)].pos <= a.pos THEN Append(s, a)
                      ELSE Append(InsertSorted(SubSeq(s, 1, Len(s) - 1), a), s[Len(s)])
RECURSIVE SortByPos(_)
SortByPos(s) == IF s = <<>> THEN <<>> ELSE InsertSorted(SortByPos(SubSeq(s, 1, Len(s) - 1)), s[Len(s)])

CharAttrA(it, ord) == [name |-> S_character, pos |-> 0, len |-> Adv(PfxChars(it)),
                       props |-> {[n |-> S_name, v |-> [t |-> "str", s |-> it.name]]}, src |-> 0, ord |-> ord]

\* raw result: untrimmed text, attributes in the code's order (sorted markers, then character)
RawA(items, src0) ==
  LET st == FoldA(items, 1, St0(src0)) IN
  IF st.err THEN [ok |-> FALSE, srcEnd |-> st.src]
  ELSE LET b == Build(st.marks, 1, <<>>, <<>>) IN
       IF ~b.ok THEN [ok |-> FALSE, srcEnd |-> st.src]
       ELSE LET sorted == SortByPos(b.attrs)
                all == IF items # <<>> /\ items[1].k = "pfx"
                       THEN Append(sorted, CharAttrA(items[1], Len(sorted) + 1)) ELSE sorted
            IN [ok |-> TRUE, text |-> st.text, attrs |-> all, nMarkerAttrs |-> Len(sorted), srcEnd |-> st.src]

\* ------------------------------------------------------- trim, shift, clamp
LeadWs(t) == LET S == {i \in DOMAIN t : ~IsSpace(t[i])} IN IF S = {} THEN Len(t) ELSE Min(S) - 1
TrailWs(t) == LET S == {i \in DOMAIN t : ~IsSpace(t[i])} IN IF S = {} THEN 0 ELSE Len(t) - Max(S)
Clamp(x, n) == IF x < 0 THEN 0 ELSE IF x > n THEN n ELSE x
Adjust(a, lead, n) == LET s == Clamp(a.pos - lead, n)  e == Clamp(a.pos + a.len - lead, n)
                      IN [a EXCEPT !.pos = s, !.len = e - s]

\* what a caller sees of an attribute (SourcePosition is not part of C13)
Pub(a, text) == [name |-> a.name, pos |-> a.pos, len |-> a.len, props |-> a.props,
                 tfa |-> SafeSub(text, a.pos + 1, a.pos + a.len)]

\* the two results a correct parser may return (rule 8 of DESIGN appendix E):
\* untrimmed text with the ranges as counted, or trimmed text with the ranges
\* shifted and clipped.  They coincide when the text has no whitespace at an edge.
Untrimmed(r) == [ok |-> TRUE, text |-> r.text, attrs |-> [i \in DOMAIN r.attrs |-> Pub(r.attrs[i], r.text)]]
Trimmed(r) ==
  LET lead == LeadWs(r.text)
      n == Len(r.text) - lead - TrailWs(r.text)
      t == SubSeq(r.text, lead + 1, lead + n)
  IN [ok |-> TRUE, text |-> t,
      attrs |-> [i \in DOMAIN r.attrs |->
                   Pub(IF Bug_NoTrimAdjust THEN r.attrs[i] ELSE Adjust(r.attrs[i], lead, n), t)]]

ErrRes == [ok |-> FALSE]
ResA(items) == LET r == RawA(items, 0) IN
               IF ~r.ok THEN [ok |-> FALSE] ELSE [ok |-> TRUE, v1 |-> Trimmed(r), v2 |-> Untrimmed(r)]
\* acceptable results, as a sequence (1 or 2 entries)
ExpectedSeq(items) == LET r == ResA(items) IN
                      IF ~r.ok THEN <<ErrRes>> ELSE IF r.v1 = r.v2 THEN <<r.v1>> ELSE <<r.v1, r.v2>>

\* does an observed result g = [ok, text, attrs(seq of Pub-shaped records)] equal e ?
SameResult(g, e) == /\ g.ok = e.ok
                    /\ e.ok => (g.text = e.text /\ SameBag(g.attrs, e.attrs))
Accepts(items, g) == \E i \in DOMAIN ExpectedSeq(items) : SameResult(g, ExpectedSeq(items)[i])

(* ========================================================================= *)
(* (B) provenance                                                             *)
(* ========================================================================= *)
\* Item i acts at time 3i (its marker event), emits its characters at 3i+1 and
\* (nomarkup only) closes at 3i+2.
RECURSIVE Swallowing(_, _), Swallowed(_, _), EmitB(_, _)
\* item i is a whitespace character eaten by the self-closing marker before it
Swallowed(items, i) == i > 1 /\ items[i].k = "ch" /\ IsSpace(items[i].c) /\ Swallowing(items, i - 1)
EmitB(items, i) == IF Swallowed(items, i) THEN <<>> ELSE ItemChars(items[i])
\* rule 5: a non-replacement self-closing marker at output position 0 or directly
\* after a literal whitespace character swallows one following whitespace character
Swallowing(items, i) ==
  /\ items[i].k = "self" /\ ~TrimOff(items[i].props)
  /\ \/ \A j \in 1..(i - 1) : EmitB(items, j) = <<>>
     \/ i > 1 /\ items[i - 1].k = "ch" /\ IsSpace(items[i - 1].c) /\ ~Swallowed(items, i - 1)
     \/ i > 1 /\ items[i - 1].k = "pfx" /\ items[i - 1].ws # <<>>

OutB(items) == Flat([i \in DOMAIN items |->
                      LET cs == EmitB(items, i) IN [j \in DOMAIN cs |-> [c |-> cs[j], st |-> 3 * i + 1]]])

\* the event that closes the open marker at item o (0: never closed, the marker is dropped)
Closers(items, o) == {j \in (o + 1)..Len(items) :
                        \/ items[j].k = "close" /\ items[j].name = items[o].name
                        \/ items[j].k = "closeall"
                        \/ items[j].k \in RawKinds /\ items[j].close = "all"}
Closer(items, o) == IF Closers(items, o) = {} THEN 0 ELSE Min(Closers(items, o))
CloseStamp(items, j) == IF items[j].k \in RawKinds THEN 3 * j + 2 ELSE 3 * j

ErrB(items) == \E i \in DOMAIN items :
                 \/ items[i].k = "mal"
                 \/ items[i].k \in ReplKinds /\ ~Replacement(items[i]).ok
                 \/ items[i].k = "ropen" /\ ~Replacement(AsRepl(items[i])).ok
                 \/ items[i].k = "close"
                    /\ ~\E o \in 1..(i - 1) : items[o].k = "open" /\ items[o].name = items[i].name
                                              /\ Closer(items, o) = i

\* attribute of item i over the surviving output indices T (a set), as 0 or 1 records
ItemAttrB(items, out, T, i) ==
  LET it == items[i]
      Before(s) == Cardinality({k \in T : out[k].st < s})
      Between(s, e) == Cardinality({k \in T : out[k].st > s /\ out[k].st < e})
  IN CASE it.k = "open" ->
            LET j == Closer(items, i) IN
            IF j = 0 THEN <<>>
            ELSE <<[name |-> it.name, pos |-> Before(3 * i), len |-> Between(3 * i, CloseStamp(items, j)),
                    props |-> PropSet(it.props)]>>
       [] it.k = "self" -> <<[name |-> it.name, pos |-> Before(3 * i), len |-> 0, props |-> PropSet(it.props)]>>
       [] it.k \in ReplKinds ->
            <<[name |-> ReplName(it.k), pos |-> Before(3 * i), len |-> 0, props |-> PropSet(it.props)]>>
       [] it.k = "nomarkup" ->
            <<[name |-> S_nomarkup, pos |-> Before(3 * i), len |-> Between(3 * i, 3 * i + 2), props |-> {}]>>
       [] it.k = "ropen" ->
            <<[name |-> ReplName(it.rk), pos |-> Before(3 * i), len |-> Between(3 * i, 3 * i + 2), props |-> PropSet(it.props)]>>
       [] it.k = "pfx" /\ i = 1 ->
            <<[name |-> S_character, pos |-> Before(3), len |-> Between(3, 5),
               props |-> {[n |-> S_name, v |-> [t |-> "str", s |-> it.name]]}]>>
       [] OTHER -> <<>>

VariantB(items, out, lo, hi) ==
  LET text == [k \in 1..(hi - lo + 1) |-> out[lo + k - 1].c]
      as == Flat([i \in DOMAIN items |-> ItemAttrB(items, out, lo..hi, i)])
  IN [ok |-> TRUE, text |-> text,
      attrs |-> [i \in DOMAIN as |-> [name |-> as[i].name, pos |-> as[i].pos, len |-> as[i].len,
                                       props |-> as[i].props,
                                       tfa |-> SafeSub(text, as[i].pos + 1, as[i].pos + as[i].len)]]]

ResB(items) ==
  IF ErrB(items) THEN [ok |-> FALSE]
  ELSE LET out == OutB(items)
           t == [k \in DOMAIN out |-> out[k].c]
           lead == LeadWs(t)
           n == Len(t) - lead - TrailWs(t)
       IN [ok |-> TRUE, v1 |-> VariantB(items, out, lead + 1, lead + n), v2 |-> VariantB(items, out, 1, Len(out))]

(* ========================================================================= *)
(* The region of lines property C13 speaks about and the generators stay in   *)
(* (DESIGN appendix D/E).  Used to filter what is replayed on the code and as *)
(* a safety net against generator mistakes in trace validation.               *)
(* ========================================================================= *)
NoColon(cs) == \A i \in DOMAIN cs : cs[i] # 58
RECURSIVE PropsCps(_)
PropsCps(ps) == IF ps = <<>> THEN <<>>
                ELSE Head(ps).n \o (IF Head(ps).v.t = "str" THEN Head(ps).v.s ELSE <<>>) \o PropsCps(Tail(ps))
ItemCps(it) == CASE it.k \in {"ch", "esc"} -> <<it.c>>
                 [] it.k = "pfx" -> it.name \o it.ws
                 [] it.k \in {"open", "self"} -> it.name \o PropsCps(it.props)
                 [] it.k = "close" -> it.name
                 [] it.k \in ReplKinds -> PropsCps(it.props)
                 [] it.k = "nomarkup" -> it.raw
                 [] it.k = "ropen" -> PropsCps(it.props) \o it.raw
                 [] OTHER -> <<>>

DistinctPropNames(ps) == \A i, j \in DOMAIN ps : i # j => ps[i].n # ps[j].n

\* marker discipline: a close names an open marker, reserved names are not used, nothing
\* stays open.  `open` is the sequence of the names open so far (a name may be open
\* several times: same-name nesting, paired as PairLast says).
RemoveOne(s, n) == LET j == Min({k \in DOMAIN s : s[k] = n}) IN RemoveAt(s, j)
InSeq(s, n) == \E k \in DOMAIN s : s[k] = n
RECURSIVE Discipline(_, _, _)
Discipline(items, i, open) ==
  IF i > Len(items) THEN open = <<>>
  ELSE LET it == items[i] IN
    CASE it.k = "open" -> it.name \notin Reserved /\ it.name # <<>>
                          /\ Discipline(items, i + 1, Append(open, it.name))
      [] it.k = "close" -> InSeq(open, it.name) /\ Discipline(items, i + 1, RemoveOne(open, it.name))
      [] it.k = "closeall" -> Discipline(items, i + 1, <<>>)
      [] it.k \in RawKinds -> Discipline(items, i + 1, IF it.close = "all" THEN <<>> ELSE open)
      [] it.k = "self" -> it.name \notin Reserved /\ it.name # <<>> /\ Discipline(items, i + 1, open)
      [] OTHER -> Discipline(items, i + 1, open)

ItemOK(items, i) ==
  LET it == items[i] IN
  CASE it.k = "ch" -> /\ it.c \notin {91, 92, 93} /\ it.c \notin {160, 12288}
                      \* the whitespace after `Name:` belongs to the prefix item
                      /\ ~(i = 2 /\ items[1].k = "pfx" /\ IsSpace(it.c))
    [] it.k = "esc" -> it.c \in {91, 93}
    [] it.k = "pfx" -> i = 1 /\ it.name # <<>>
                       /\ \A j1 \in DOMAIN it.name : ~IsSpace(it.name[j1]) /\ it.name[j1] \notin {91, 92, 93}
                       /\ \A j2 \in DOMAIN it.ws : it.ws[j2] \in {32, 9}
    [] it.k = "open" -> DistinctPropNames(it.props) /\ ~HasProp(it.props, S_trimwhitespace)
    [] it.k = "self" ->
         /\ DistinctPropNames(it.props)
         /\ HasProp(it.props, S_trimwhitespace) => Prop(it.props, S_trimwhitespace).t = "bool"
         \* rule 5 after an escaped bracket is left out: there the code remembers the
         \* character before the backslash, which neither reading of the rule asks for
         /\ (i > 1 => items[i - 1].k # "esc")
    [] it.k \in ReplKinds ->
         /\ DistinctPropNames(it.props) /\ ~HasProp(it.props, S_trimwhitespace)
         /\ Replacement(it).ok
         /\ LET c == ReplCase(it) IN
            Prop(it.props, S_value).t = "dec" => \A j \in DOMAIN Display(Prop(it.props, c.key)) :
                                                     Display(Prop(it.props, c.key))[j] # 37
    [] it.k = "nomarkup" -> \A j \in DOMAIN it.raw : it.raw[j] \notin {47, 92}
    [] it.k = "ropen" ->
         /\ \A j \in DOMAIN it.raw : it.raw[j] \notin {47, 92}
         /\ DistinctPropNames(it.props) /\ ~HasProp(it.props, S_trimwhitespace)
         /\ Replacement(AsRepl(it)).ok
         /\ LET c == ReplCase(AsRepl(it)) IN
            Prop(it.props, S_value).t = "dec" => \A j \in DOMAIN Display(Prop(it.props, c.key)) :
                                                     Display(Prop(it.props, c.key))[j] # 37
    [] it.k \in {"close", "closeall"} -> TRUE
    [] OTHER -> FALSE

WellFormedC13(items) ==
  /\ \A i \in DOMAIN items : ItemOK(items, i)
  /\ Discipline(items, 1, <<>>)
  /\ \A i \in DOMAIN items : NoColon(ItemCps(items[i]))

\* lines on which the two formulations are comparable: no marker opened while another of
\* the same name is open (the Go port pairs with the earliest, upstream with the latest)
RECURSIVE NoSameNameNesting(_, _, _)
NoSameNameNesting(items, i, open) ==
  IF i > Len(items) THEN TRUE
  ELSE LET it == items[i] IN
    CASE it.k = "open" -> it.name \notin open /\ NoSameNameNesting(items, i + 1, open \cup {it.name})
      [] it.k = "close" -> NoSameNameNesting(items, i + 1, open \ {it.name})
      [] it.k = "closeall" -> NoSameNameNesting(items, i + 1, {})
      [] it.k \in RawKinds -> NoSameNameNesting(items, i + 1, IF it.close = "all" THEN {} ELSE open)
      [] OTHER -> NoSameNameNesting(items, i + 1, open)

(* ========================================================================= *)
(* Properties of a result (C13 / C15), stated on formulation (A)              *)
(* ========================================================================= *)
InRange(v) == \A i \in DOMAIN v.attrs :
                 v.attrs[i].pos >= 0 /\ v.attrs[i].len >= 0 /\ v.attrs[i].pos + v.attrs[i].len <= Len(v.text)

(* ========================================================================= *)
(* The parser value (C14): fields that survive a call                         *)
(* ========================================================================= *)
ParserInit == [src |-> 0]
\* result of ParseMarkup(items) on parser value p, with the model's source positions,
\* and the parser value afterwards
ParseOn(p, items) ==
  LET r == RawA(items, IF Bug_NoResetSourcePosition THEN p.src ELSE 0) IN
  [p |-> [src |-> r.srcEnd],
   res |-> IF ~r.ok THEN [ok |-> FALSE]
           ELSE LET t == Trimmed(r) IN
                [ok |-> TRUE, text |-> t.text,
                 attrs |-> [i \in DOMAIN t.attrs |->
                              [name |-> t.attrs[i].name, pos |-> t.attrs[i].pos, len |-> t.attrs[i].len,
                               props |-> t.attrs[i].props, src |-> r.attrs[i].src]]]]
=============================================================================
